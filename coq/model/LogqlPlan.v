(* Transcription of reader/logql/logql_transpiler_v2/clickhouse_planner: the planner object tree
   built by planner.plan() (analyze.go, planner.go) and the Process method of every planner,
   as functions over the Sql.v object tree. Process methods are stateful in Go: the shared
   fingerprint / labels WITH caches (planner.fpCache, planner.labelsCache), the id counter of
   shared.PlannerContext, and LineFilterPlanner.Val (overwritten by Process) are threaded
   explicitly, so that executing one plan object several times (live tail) is expressible. *)
From Coq Require Import List ZArith NArith String Ascii Bool.
From Qryn Require Import lib.Strs lib.CivilDate model.Sql model.SqlRender model.Logql model.LogqlRegexp model.LogqlTemplate.
Import ListNotations.
Open Scope string_scope.

(* shared.PlannerContext, the fields the planners read *)
Record pctx := {
  c_from_ns : Z; c_to_ns : Z;               (* ctx.From.UnixNano(), ctx.To.UnixNano() *)
  c_limit : Z; c_asc : bool; c_cluster : bool; c_type : Z; c_finalize : bool;   (* CHFinalize *)
  c_step_ns : Z;
  t_gin : string; t_samples : string; t_ts : string; t_ts_dist : string; t_m15 : string
}.

(* mutable state reachable from Process: caches are set once per plan object *)
Record pst := {
  fp_cache : option (string * select);
  labels_cache : option (string * select);
  pid : N                                    (* PlannerContext.id *)
}.
Definition pst0 := {| fp_cache := None; labels_cache := None; pid := 0 |}.
Definition next_id (st : pst) : N * pst :=
  let i := (pid st + 1)%N in (i, {| fp_cache := fp_cache st; labels_cache := labels_cache st; pid := i |}).
Definition set_fp_cache w (st : pst) := {| fp_cache := Some w; labels_cache := labels_cache st; pid := pid st |}.
Definition set_labels_cache w (st : pst) := {| fp_cache := fp_cache st; labels_cache := Some w; pid := pid st |}.
(* MainFinalizerPlanner.Process (the root of every plan) first resets planner.fpCache / planner.labelsCache *)
Definition clear_caches (st : pst) : pst := {| fp_cache := None; labels_cache := None; pid := pid st |}.

(* FormatFromDate(t) = t.UTC().Add(-30 min).Format("2006-01-02") as a day number *)
Definition from_day (from_ns : Z) : Z := (from_ns - 1800 * 1000000000) / (86400 * 1000000000).
Definition format_from_date (c : pctx) : expr := DateV (from_day (c_from_ns c)).

(* GetTypes *)
Definition get_types (c : pctx) : expr :=
  In (Id "type") [IntV (if Z.eqb (c_type c) 0 then 1 else c_type c); IntV 0].

Definition sql_match (col pat : expr) : expr := Fn "match" [col; pat].

(* ---------- planner objects ---------- *)
Inductive planner :=
 | PStreamSelect (ms : list matcher)
 | PSimpleLabelFilter (f : label_filter) (fpsel : planner)
 | PFingerprintFilter (fp main : planner)
 | PMainInit
 | PTimeSeriesInit
 | PLineFilterP (op : lfop) (val : string) (re_lit : option (string * bool)) (main : planner)
 | PLabelFilterP (f : label_filter) (main : planner)
 | PParserP (fn : parser_fn) (params : list parser_param) (main : planner)
 | PDropP (params : list (string * option string)) (main : planner)
 | PLabelsJoin (main fp ts : planner) (with_labels_cache : bool)
 | PMainRenew (main : planner) (use_labels : bool)
 | PMainOrderBy (cols : list string) (main : planner)
 | PMainLimit (main : planner)
 | PMainFinalizer (main : planner) (is_matrix is_final : bool)
 (* metric side (C08) *)
 | PLraP (f : lra_fn) (dur_ns : Z) (with_labels : bool) (main : planner)
 | PUnwrapP (label : string) (main : planner)
 | PUnwrapFnP (f : lra_fn) (dur_ns : Z) (main : planner)
 | PByWithoutP (labels : list string) (by_ : bool) (use_ts : bool) (main : planner)
 | PAggOpP (f : agg_fn) (with_labels : bool) (main : planner)
 | PComparisonP (fn : cmpop) (val : string) (main : planner)
 | PTopKP (len : Z) (is_top : bool) (main : planner)
 | PQuantileP (param : string) (dur_ns : Z) (main : planner)
 | PStepFixP (dur_ns : Z) (main : planner)
 | PMetrics15 (f : lra_fn) (dur_ns : Z)
 (* LineFormatPlanner (planner_line_format.go); formatStr / args are rebuilt by every Process: no state *)
 | PLineFormatP (tmpl : string) (main : planner).

(* ---------- StreamSelectPlanner ---------- *)
Definition val_clause (m : matcher) : expr :=
  match m_op m with
  | MEq => Eq (Id "val") (StrV (m_val m))
  | MNeq => Neq (Id "val") (StrV (m_val m))
  | MRe => Eq (sql_match (Id "val") (StrV (m_val m))) (IntV 1)
  | MNre => Eq (sql_match (Id "val") (StrV (m_val m))) (IntV 0)
  end.
Definition sel_clause (m : matcher) : expr := And [Eq (Id "key") (StrV (m_name m)); val_clause m].
Definition stream_select (c : pctx) (ms : list matcher) : select :=
  let clauses := map sel_clause ms in
  and_having [Eq (BitSetAnd clauses) (IntV (2 ^ Z.of_nat (List.length clauses) - 1))]
   (set_groupby [Id "fingerprint"]
    (and_where [Ge (Id "date") (format_from_date c); get_types c; Or clauses]
     (set_from (Id (t_gin c)) (set_cols [Id "fingerprint"] empty_select)))).

(* ---------- LabelFilterPlanner.makeSqlCond ---------- *)
Definition lblop_numeric (s : simple_lf) : bool :=
  match slf_fn s with
  | LDeq | LGt | LGe | LLt | LLe => true
  | LNeq => match slf_str s with None => true | Some _ => false end
  | _ => false
  end.
Definition simple_cond (getter : option (string -> expr)) (s : simple_lf) : option expr :=
  let label := match getter with
               | Some g => g (slf_label s)
               | None => Idx (Id "labels") (QRaw (slf_label s)) end in
  if lblop_numeric s then
    let lbl := Fn "toFloat64OrNull" [label] in
    match slf_num s with
    | None => None
    | Some (txt, f) =>
      if String.eqb txt "" then None else
      let op := match slf_fn s with
                | LDeq => Some Eq | LNeq => Some Neq | LGt => Some Gt | LGe => Some Ge | LLt => Some Lt | LLe => Some Le
                | _ => None end in
      match op with
      | Some mk => Some (And [NotNull lbl; mk lbl (FloatV f)])
      | None => None
      end
    end
  else
    match slf_str s with
    | None => None
    | Some v =>
      match slf_fn s with
      | LEq => Some (Eq label (StrV v))
      | LRe => Some (Eq (sql_match label (StrV v)) (IntV 1))
      | LNre => Some (Eq (sql_match label (StrV v)) (IntV 0))
      | LNeq => Some (Neq label (StrV v))
      | _ => None
      end
    end.
Fixpoint lf_cond (getter : option (string -> expr)) (f : label_filter) : option expr :=
  match f with
  | LF head op tail =>
    let left := match head with
                | HSimple s => simple_cond getter s
                | HComplex f' => lf_cond getter f'
                end in
    match left with
    | None => None
    | Some l =>
      match tail with
      | None => Some l
      | Some t =>
        match lf_cond getter t with
        | None => None
        | Some r => match op with
                    | Some true => Some (And [l; r])
                    | Some false => Some (Or [l; r])
                    | None => None
                    end
        end
      end
    end
  end.

(* ---------- LineFilterPlanner ---------- *)
(* doLike: escape the LIKE metacharacters of the value (\ % _), wrap in %...%, quote once *)
Definition esc_like (s : string) : string :=
  map_string (fun c => if Ascii.eqb c "\" then "\\" else if Ascii.eqb c "%" then "\%" else if Ascii.eqb c "_" then "\_" else ch c) s.
Definition like_pattern (val : string) : string := "%" ++ esc_like val ++ "%".
Definition do_like (like_op val : string) : expr :=
  Eq (Fn like_op [Id "samples.string"; StrV (like_pattern val)]) (IntV 1).
Definition line_filter_clause (op : lfop) (val : string) (re_lit : option (string * bool)) : expr :=
  match op with
  | LFContains => do_like "like" val
  | LFNotContains => do_like "notLike" val
  | LFRe => match re_lit with
            | Some (lit, insens) => do_like (if insens then "ilike" else "like") lit
            | None => Eq (sql_match (Id "samples.string") (StrV val)) (IntV 1)   (* the stored line, as do_like reads it (repair regex-line-filter-reads-alias) *)
            end
  | LFNre => match re_lit with
             | Some (lit, insens) => do_like (if insens then "notILike" else "notLike") lit
             | None => Eq (sql_match (Id "samples.string") (StrV val)) (IntV 0)
             end
  end.

(* ---------- ParserPlanner (json with parameters) ---------- *)
(* since the repair json-path-alias the whole path is printed in each of the three calls (`'a','b' as jp_1` named only the
   last argument, so the two extractions read the top-level key 'b'); no id is drawn any more *)
(* a part of the path: a key is printed as a string literal; an [n] part reaches ClickHouse as a NUMBER (the index counted
   from 1 - a string argument of JSONExtract* names an object key; repair json-index-part-printed-as-key).  pp_path keeps
   its type: the oracle hands an index part over as the byte 0 followed by the decimal digits of n+1, and a key that itself
   begins with the byte 0 with that byte doubled *)
Definition json_part (s : string) : expr :=
  match s with
  | String c d =>
    if Ascii.eqb c "000"%char then
      match d with
      | String c2 _ => if Ascii.eqb c2 "000"%char then StrV d else Raw d
      | EmptyString => Raw d
      end
    else StrV s
  | EmptyString => StrV s
  end.
Definition json_path_sql (path : list string) : expr :=
  let p := Sep "," (map json_part path) in
  Fn "if" [Sep " == " [Fn "JSONType" [Id "string"; p]; StrV "String"];
           Fn "JSONExtractString" [Id "string"; p];
           Fn "JSONExtractRaw" [Id "string"; p]].
Definition sql_json_parser (labels : list string) (paths : list (list string)) : expr :=
  Sep "" [Raw "mapFilter((k,v) -> v != '', mapFromArrays(["; Sep "," (map StrV labels); Raw "], ["; Sep "," (map json_path_sql paths); Raw "]))"].
Fixpoint all_paths (ps : list parser_param) : option (list (list string)) :=
  match ps with
  | [] => Some []
  | p :: r => match pp_path p, all_paths r with
              | Some x, Some xs => Some (x :: xs)
              | _, _ => None end
  end.
Definition fp_of_labels : expr := Raw "cityHash64(arraySort(arrayZip(mapKeys(labels),mapValues(labels))))".

(* ---------- PlannerDrop: mapDropFilter ---------- *)
Definition drop_clause (p : string * option string) : expr :=
  let key_only := Sep "" [Raw "k!="; StrV (fst p)] in
  match snd p with
  | Some v => if String.eqb v "" then key_only
              else Sep "" [Raw "(k, v)!=("; StrV (fst p); Raw ", "; StrV v; Raw ")"]
  | None => key_only
  end.
Definition map_drop_filter (col : expr) (params : list (string * option string)) : expr :=
  Fn "mapFilter" [Sep "" [Raw "(k,v) -> "; Sep " and " (map drop_clause params)]; col].

(* ---------- the SELECT skeletons ---------- *)
Definition main_init (c : pctx) : select :=
  and_prewhere [Ge (Id "samples.timestamp_ns") (IntV (c_from_ns c));
                Lt (Id "samples.timestamp_ns") (IntV (c_to_ns c)); get_types c]
   (set_from (SimpleCol (t_samples c) "samples")
    (set_cols [SimpleCol "samples.timestamp_ns" "timestamp_ns"; SimpleCol "samples.fingerprint" "fingerprint";
               SimpleCol "samples.string" "string"; Col (Fn "toFloat64" [IntV 0]) "value"] empty_select)).
Definition ts_labels_expr : string :=
  "mapFromArrays(arrayMap(x -> x.1, JSONExtractKeysAndValues(time_series.labels, 'String') as rawlbls), arrayMap(x -> x.2, rawlbls))".
Definition ts_init (c : pctx) : select :=
  and_prewhere [Ge (Id "time_series.date") (format_from_date c); get_types c]
   (set_from (SimpleCol (t_ts_dist c) "time_series")
    (set_cols [SimpleCol "time_series.fingerprint" "fingerprint"; Col (Raw ts_labels_expr) "labels"] empty_select)).
Definition join_type (c : pctx) : string := if c_cluster c then "GLOBAL ANY LEFT " else "ANY LEFT ".


(* ---------- metric planners: the aggregate expressions, as small structured values ---------- *)
(* secondsText(d): the range in seconds printed exactly to the nanosecond, fmt "%d.%09d" of d/Second, d%Second with the
   trailing zeros and a trailing dot trimmed ("5", "0.0015", "0.000000001") *)
Definition trim_right_zeros (s : string) : string := rev_s (trim_left1 "0"%char (rev_s s "")) "".
Definition secs_text (dur_ns : Z) : string :=
  let i := string_of_Z (Z.quot dur_ns 1000000000) in
  let f := trim_right_zeros (dec_pad 9 (Z.to_N (Z.rem dur_ns 1000000000))) in
  if String.eqb f "" then i else i ++ "." ++ f.

(* the value column of LRAPlanner *)
Inductive lra_val := LVCount | LVCountDiv (dur_ns : Z) | LVBytes | LVBytesDiv (dur_ns : Z).
Definition lra_val_of (f : lra_fn) (dur_ns : Z) : option lra_val :=
  match f with
  | FRate => Some (LVCountDiv dur_ns)
  | FCountOverTime => Some LVCount
  | FBytesRate => Some (LVBytesDiv dur_ns)
  | FBytesOverTime => Some LVBytes
  | _ => None                                                 (* col stays nil: NewCol(nil).String panics *)
  end.
Definition lra_val_sql (v : lra_val) : expr :=
  match v with
  | LVCount => Raw "toFloat64(COUNT())"
  | LVCountDiv d => Sep " / " [Raw "toFloat64(COUNT())"; FloatV (secs_text d)]
  | LVBytes => Raw "toFloat64(sum(length(_string)))"
  | LVBytesDiv d => Sep " / " [Raw "toFloat64(sum(length(_string)))"; FloatV (secs_text d)]
  end.

(* the value column of UnwrapFunctionPlanner *)
Inductive uw_val := UVSum | UVSumDiv (dur_ns : Z) | UVAvg | UVMax | UVMin | UVFirst | UVLast | UVVarPop | UVStddevPop.
Definition uw_val_of (f : lra_fn) (dur_ns : Z) : option uw_val :=
  match f with
  | FRate => Some (UVSumDiv dur_ns)
  | FSumOverTime => Some UVSum
  | FAvgOverTime => Some UVAvg
  | FMaxOverTime => Some UVMax
  | FMinOverTime => Some UVMin
  | FFirstOverTime => Some UVFirst
  | FLastOverTime => Some UVLast
  | FStdvarOverTime => Some UVVarPop
  | FStddevOverTime => Some UVStddevPop
  | _ => None
  end.
Definition uw_val_sql (v : uw_val) : expr :=
  match v with
  | UVSum => Raw "sum(unwrap_1.value)"
  | UVSumDiv d => Sep " / " [Raw "sum(unwrap_1.value)"; FloatV (secs_text d)]
  | UVAvg => Raw "avg(unwrap_1.value)"
  | UVMax => Raw "max(unwrap_1.value)"
  | UVMin => Raw "min(unwrap_1.value)"
  | UVFirst => Raw "argMin(unwrap_1.value, unwrap_1.timestamp_ns)"
  | UVLast => Raw "argMax(unwrap_1.value, unwrap_1.timestamp_ns)"
  | UVVarPop => Raw "varPop(unwrap_1.value)"
  | UVStddevPop => Raw "stddevPop(unwrap_1.value)"
  end.

(* the value column of AggOpPlanner *)
Definition agg_val_sql (f : agg_fn) : expr :=
  match f with
  | ASum => Raw "sum(lra_main.value)"
  | AMin => Raw "min(lra_main.value)"
  | AMax => Raw "max(lra_main.value)"
  | AAvg => Raw "avg(lra_main.value)"
  | AStddev => Raw "stddevPop(lra_main.value)"
  | AStdvar => Raw "varPop(lra_main.value)"
  | ACount => Raw "count()"
  end.

(* the value column of Metrics15ShortcutPlanner *)
Inductive m15_val := MVCount | MVCountDiv (dur_ns : Z).
Definition m15_val_of (f : lra_fn) (dur_ns : Z) : option m15_val :=
  match f with
  | FRate => Some (MVCountDiv dur_ns)
  | FCountOverTime => Some MVCount
  | _ => None
  end.
Definition m15_val_sql (v : m15_val) : expr :=
  match v with
  | MVCount => Raw "countMerge(count)"
  | MVCountDiv d => Sep " / " [Raw "toFloat64(countMerge(count))"; FloatV (secs_text d)]
  end.

(* fmt.Sprintf("intDiv(<col>, %d) * %[1]d", n): the bucket of a timestamp *)
Definition bucket_sql (col : string) (n : Z) : expr := Sep " * " [Fn "intDiv" [Id col; IntV n]; IntV n].

Definition cmp_mk (fn : cmpop) : expr -> expr -> expr :=
  match fn with CEq => Eq | CNeq => Neq | CGt => Gt | CGe => Ge | CLt => Lt | CLe => Le end.

(* byWithoutFilterCol *)
Definition bw_filter (col : expr) (labels : list string) (by_ : bool) : expr :=
  (* by (): no label is kept; `k IN ()` is not valid ClickHouse (repair agg-without-grouping-keeps-streams) *)
  if by_ && (match labels with [] => true | _ => false end) then Sep "" [Raw "mapFilter((k,v) -> 0, "; col; Raw ")"] else
  Sep "" [Raw "mapFilter((k,v) -> k "; Raw (if by_ then "IN" else "NOT IN"); Raw " ("; Sep "," (map StrV labels); Raw "), "; col; Raw ")"].

(* regexMap of planner_parser_regexp.go; id = sql.Ctx.Id() drawn after the parts are rendered *)
Definition regex_map (names : list string) (re : string) : expr :=
  WithId (fun id =>
    let i := string_of_N id in
    Sep "" [Raw "mapFromArrays(arrayFilter( (x,y) -> x != '' AND y != '',  ["; Sep "," (map StrV names);
            Raw ("] as re_lbls_" ++ i ++ ",  arrayMap(x -> x[1], extractAllGroupsHorizontal(string, ");
            StrV re;
            Raw (")) as re_vals_" ++ i ++ "),arrayFilter((x,y) -> x != '' AND y != '', re_vals_" ++ i ++ ", re_lbls_" ++ i ++ "))")]).

(* TopKPlanner: the slice column *)
Definition topk_slice (len : Z) (is_top has_labels : bool) : expr :=
  Sep "" [Raw "arraySlice(arraySort(";
          Raw (if is_top then "x -> (-x.1, x.2" ++ (if has_labels then ", x.3" else "") ++ ")," else "");
          Raw "groupArray((par_a.value, par_a.fingerprint"; Raw (if has_labels then ", par_a.labels" else "");
          Raw "))), 1, "; IntV len; Raw ")"].

(* LRAPlanner renames the "string" column of its input *)
Definition rename_string (cols : list expr) : list expr :=
  map (fun c => match alias_of c with
                | Some (x, a) => if String.eqb a "string" then Col x "_string" else c
                | None => c end) cols.

(* labelsFromScratch *)
Definition labels_from_scratch (c : pctx) (fpw : string * select) : select :=
  and_prewhere [In (Id "time_series.fingerprint") [WRef (fst fpw) (snd fpw)]] (ts_init c).

(* ---------- Process ---------- *)
Definition res (A : Type) := option A.
Definition bind {A B} (x : res A) (f : A -> res B) : res B := match x with Some a => f a | None => None end.
Notation "'do' x <- e ; k" := (bind e (fun x => k)) (at level 200, x pattern, e at level 100, k at level 200).

(* WithConnectorPlanner: Main first, then the cached or freshly processed With *)
Definition with_connector (proc : planner -> pctx -> pst -> res (select * pst * planner))
    (mainp withp : planner) (c : pctx) (st : pst) (fn : select -> string * select -> select)
    : res (select * pst * planner * planner) :=
  do (main, st1, mainp') <- proc mainp c st;
  match fp_cache st1 with
  | Some w => Some (fn (with_ [w] main) w, st1, mainp', withp)
  | None =>
    do (wreq, st2, withp') <- proc withp c st1;
    let w := ("fp_sel", wreq) in
    Some (fn (with_ [w] main) w, set_fp_cache w st2, mainp', withp')
  end.

Fixpoint process (p : planner) (c : pctx) (st : pst) {struct p} : res (select * pst * planner) :=
  match p with
  | PStreamSelect ms => Some (stream_select c ms, st, p)
  | PSimpleLabelFilter f fpsel =>
    do (main, st1, fpsel') <- process fpsel c st;
    let '(i, st2) := next_id st1 in
    let id := "subsel_" ++ string_of_N i in
    (* since the repair of label-filter-series-scan-unbounded the index read carries the date and type bounds of every other
       time_series read *)
    let req := and_where [In (Id "fingerprint") [WRef id main]; Ge (Id "date") (format_from_date c); get_types c]
                 (set_from (Id (t_ts c)) (set_cols [Id "fingerprint"] (with_ [(id, main)] empty_select))) in
    do cond <- lf_cond (Some (fun s => Fn "JSONExtractString" [Id "labels"; QRaw s])) f;
    Some (and_where [cond] req, st2, PSimpleLabelFilter f fpsel')
  | PFingerprintFilter fp main =>
    do (r, st1, main', fp') <- with_connector process main fp c st
           (fun q w => and_where [In (Id "samples.fingerprint") [WRef (fst w) (snd w)]] q);
    Some (r, st1, PFingerprintFilter fp' main')
  | PMainInit => Some (main_init c, st, p)
  | PTimeSeriesInit => Some (ts_init c, st, p)
  | PLineFilterP op val re_lit main =>
    do (req, st1, main') <- process main c st;
    Some (and_where [line_filter_clause op val re_lit] req, st1, PLineFilterP op val re_lit main')
  | PLabelFilterP f main =>
    do (req, st1, main') <- process main c st;
    do cond <- lf_cond None f;
    Some (and_where [cond] req, st1, PLabelFilterP f main')
  | PParserP fn params main =>
    match fn with
    | PJson =>
      do (req, st1, main') <- process main c st;
      do paths <- all_paths params;
      let sel := patch_col (s_cols req) "labels"
                   (fun object => Fn "mapUpdate" [object; sql_json_parser (map pp_label params) paths]) in
      let req1 := set_cols sel req in
      Some (set_cols (patch_col (s_cols req1) "fingerprint" (fun _ => fp_of_labels)) req1, st1, PParserP fn params main')
    | PRegexp =>
      (* Vals[0] parsed by the participle grammar of planner_parser_regexp.go, transcribed in model/LogqlRegexp.v
         (re_plan = ast.String(), ast.collectGroupNames(nil); pp_path of the parameter still carries the same two values
         as computed by the Go functions, it is not read any more); no parameter = index out of range *)
      do (req, st1, main') <- process main c st;
      match params with
      | [] => None
      | p0 :: _ =>
        match re_plan (pp_val p0) with
        | Some (re, names) =>
          let req1 := set_cols (patch_col (s_cols req) "labels" (fun object => Fn "mapUpdate" [object; regex_map names re])) req in
          Some (set_cols (patch_col (s_cols req1) "fingerprint" (fun _ => fp_of_labels)) req1, st1, PParserP fn params main')
        | _ => None
        end
      end
    | _ => None
    end
  | PDropP params main =>
    do (req, st1, main') <- process main c st;
    (* the line is re-fingerprinted like a parsed line (since the repair of drop-keeps-fingerprint) *)
    let req1 := set_cols (patch_col (s_cols req) "labels" (fun l => map_drop_filter l params)) req in
    Some (set_cols (patch_col (s_cols req1) "fingerprint" (fun _ => fp_of_labels)) req1, st1, PDropP params main')
  | PLabelsJoin main fp ts with_lc =>
    do (tsreq, st1, ts', fp') <- with_connector process ts fp c st
           (fun q w => and_prewhere [In (Id "time_series.fingerprint") [WRef (fst w) (snd w)]] q);
    do (mainreq, st2, main') <- process main c st1;
    let wmain := ("main", mainreq) in
    let wts := ("_time_series", tsreq) in
    let st3 := if with_lc then set_labels_cache wts st2 else st2 in
    Some (set_joins [(join_type c, WRef "_time_series" tsreq,
                      Some (Eq (Id "main.fingerprint") (Id "_time_series.fingerprint")))]
           (set_from (WRef "main" mainreq)
            (set_cols [SimpleCol "main.fingerprint" "fingerprint"; SimpleCol "main.timestamp_ns" "timestamp_ns";
                       SimpleCol "_time_series.labels" "labels"; SimpleCol "main.string" "string";
                       SimpleCol "main.value" "value"]
             (with_ [wmain; wts] empty_select))), st3, PLabelsJoin main' fp' ts' with_lc)
  | PMainRenew main use_labels =>
    do (m, st1, main') <- process main c st;
    let '(i, st2) := next_id st1 in
    let a := "subsel_" ++ string_of_N i in
    Some (set_cols ([SimpleCol "samples.timestamp_ns" "timestamp_ns"; SimpleCol "samples.fingerprint" "fingerprint"]
                    ++ (if use_labels then [SimpleCol "samples.labels" "labels"] else [])
                    ++ [SimpleCol "samples.string" "string"; SimpleCol "samples.value" "value"])
           (set_from (Col (WRef a m) "samples") (with_ [(a, m)] empty_select)), st2, PMainRenew main' use_labels)
  | PMainOrderBy cols main =>
    do (req, st1, main') <- process main c st;
    Some (set_orderby (map (fun x => Ord (Id x) (c_asc c)) cols) req, st1, PMainOrderBy cols main')
  | PMainLimit main =>
    do (req, st1, main') <- process main c st;
    Some ((if Z.eqb (c_limit c) 0 then req else set_limit (Some (IntV (c_limit c))) req), st1, PMainLimit main')
  | PMainFinalizer main is_matrix is_final =>
    do (req, st1, main') <- process main c (clear_caches st);
    let p' := PMainFinalizer main' is_matrix is_final in
    if negb (c_finalize c) then Some (req, st1, p') else
    let a := "prefinal" in
    let base cols ob := set_orderby ob (set_from (WRef a req) (set_cols cols (with_ [(a, req)] empty_select))) in
    if is_matrix then
      Some (base [SimpleCol (a ++ ".fingerprint") "fingerprint"; SimpleCol (a ++ ".labels") "labels";
                  SimpleCol (a ++ ".value") "value"; SimpleCol (a ++ ".timestamp_ns") "timestamp_ns"]
                 [Ord (Id "fingerprint") true; Ord (Id "timestamp_ns") true], st1, p')
    else
      Some (base [SimpleCol (a ++ ".fingerprint") "fingerprint"; SimpleCol (a ++ ".labels") "labels";
                  SimpleCol (a ++ ".string") "string"; SimpleCol (a ++ ".timestamp_ns") "timestamp_ns"]
                 (if is_final then [Ord (Id "fingerprint") (c_asc c); Ord (Id "timestamp_ns") (c_asc c)]
                  else [Ord (Id "timestamp_ns") (c_asc c)]), st1, p')
  | PLraP f dur wl main =>
    do (m, st1, main') <- process main c st;
    do v <- lra_val_of f dur;
    let m1 := set_cols (rename_string (s_cols m)) m in
    Some (set_groupby [Id "fingerprint"; Id "timestamp_ns"]
           (set_from (Col (WRef "agg_a" m1) "time_series")
            (set_cols ([Col (bucket_sql "time_series.timestamp_ns" dur) "timestamp_ns"; SimpleCol "fingerprint" "fingerprint";
                        SimpleCol "''" "string"; Col (lra_val_sql v) "value"]
                       ++ (if wl then [SimpleCol "any(labels)" "labels"] else []))
             (with_ [("agg_a", m1)] empty_select))), st1, PLraP f dur wl main')
  | PUnwrapP label main =>
    do (m, st1, main') <- process main c st;
    do labels <- get_col (s_cols m) "labels";                    (* "labels col not inited" *)
    do src <- (if String.eqb label "_entry" then get_col (s_cols m) "string" else Some (Idx labels (StrV label)));
    Some (set_cols (patch_col (s_cols m) "value" (fun _ => Fn "toFloat64OrZero" [src])) m, st1, PUnwrapP label main')
  | PUnwrapFnP f dur main =>
    do (m, st1, main') <- process main c st;
    do v <- uw_val_of f dur;
    Some (set_groupby [Id "fingerprint"; Id "timestamp_ns"]
           (set_from (WRef "unwrap_1" m)
            (set_cols [Col (bucket_sql "timestamp_ns" dur) "timestamp_ns"; Id "fingerprint"; SimpleCol "''" "string";
                       Col (uw_val_sql v) "value"; SimpleCol "any(labels)" "labels"]
             (with_ [("unwrap_1", m)] empty_select))), st1, PUnwrapFnP f dur main')
  | PByWithoutP labels by_ use_ts main =>
    do (m, st1, main') <- process main c st;
    let p' := PByWithoutP labels by_ use_ts main' in
    if negb use_ts then
      let '(i, st2) := next_id st1 in
      let a := "pre_by_without_" ++ string_of_N i in
      Some (set_from (WRef a m)
             (set_cols [SimpleCol "timestamp_ns" "timestamp_ns"; SimpleCol "cityHash64(labels)" "fingerprint";
                        Col (bw_filter (Id (a ++ ".labels")) labels by_) "labels"; SimpleCol "string" "string";
                        SimpleCol "value" "value"]
              (with_ [(a, m)] empty_select)), st2, p')
    else
      do lsel <- match labels_cache st1 with
                 | Some w => Some (set_from (Col (WRef (fst w) (snd w)) "a")
                                    (set_cols [Id "fingerprint"; SimpleCol "cityHash64(labels)" "new_fingerprint";
                                               Col (bw_filter (Id "a.labels") labels by_) "labels"] empty_select))
                 | None =>
                   match fp_cache st1 with
                   | None => None
                   | Some fpw =>
                     let from := labels_from_scratch c fpw in
                     Some (set_cols (patch_col (s_cols from) "labels" (fun o => bw_filter o labels by_)
                                     ++ [SimpleCol "cityHash64(labels)" "new_fingerprint"]) from)
                   end
                 end;
      let '(i1, st2) := next_id st1 in
      let la := "labels_" ++ string_of_N i1 in
      let st3 := set_labels_cache (la, lsel) st2 in
      let '(i2, st4) := next_id st3 in
      let ma := "pre_without_" ++ string_of_N i2 in
      Some (set_joins [(join_type c, WRef la lsel, Some (Eq (Id (ma ++ ".fingerprint")) (Id (la ++ ".fingerprint"))))]
             (set_from (WRef ma m)
              (set_cols [SimpleCol (la ++ ".new_fingerprint") "fingerprint"; SimpleCol (ma ++ ".timestamp_ns") "timestamp_ns";
                         SimpleCol (ma ++ ".value") "value"; SimpleCol "''" "string"; SimpleCol (la ++ ".labels") "labels"]
               (with_ [(ma, m); (la, lsel)] empty_select))), st4, p')
  | PAggOpP f wl main =>
    do (m, st1, main') <- process main c st;
    Some (set_groupby [Id "fingerprint"; Id "timestamp_ns"]
           (set_from (WRef "lra_main" m)
            (set_cols ([SimpleCol "fingerprint" "fingerprint"; Col (agg_val_sql f) "value";
                        SimpleCol "lra_main.timestamp_ns" "timestamp_ns"; SimpleCol "''" "string"]
                       ++ (if wl then [SimpleCol "any(lra_main.labels)" "labels"] else []))
             (with_ [("lra_main", m)] empty_select))), st1, PAggOpP f wl main')
  | PComparisonP fn v main =>
    do (m, st1, main') <- process main c st;
    (* HAVING on a grouped select; the select of TopKPlanner does not aggregate and is filtered with WHERE *)
    let cond := cmp_mk fn (Id "value") (FloatV v) in
    Some ((match s_groupby m with [] => and_where [cond] m | _ => and_having [cond] m end), st1, PComparisonP fn v main')
  | PTopKP len is_top main =>
    do (m, st1, main') <- process main c st;
    let hl := has_column (s_cols m) "labels" in
    let q1 := set_groupby [Id "timestamp_ns"]
               (set_from (WRef "par_a" m)
                (set_cols [SimpleCol "par_a.timestamp_ns" "timestamp_ns"; Col (topk_slice len is_top hl) "slice"]
                 (with_ [("par_a", m)] empty_select))) in
    Some (set_joins [("array", SimpleCol "par_b.slice" "arr_b", None)]
           (set_from (WRef "par_b" q1)
            (set_cols ([SimpleCol "arr_b.2" "fingerprint"; SimpleCol "par_b.timestamp_ns" "timestamp_ns";
                        SimpleCol "arr_b.1" "value"; SimpleCol "''" "string"]
                       ++ (if hl then [SimpleCol "arr_b.3" "labels"] else []))
             (with_ [("par_b", q1)] empty_select))), st1, PTopKP len is_top main')
  | PQuantileP param dur main =>
    do (m, st1, main') <- process main c st;
    let hl := has_column (s_cols m) "labels" in
    Some (set_groupby [Id "timestamp_ns"; Id "fingerprint"]
           (set_from (WRef "quant_a" m)
            (set_cols ([SimpleCol "quant_a.fingerprint" "fingerprint"; Col (bucket_sql "quant_a.timestamp_ns" dur) "timestamp_ns";
                        Col (Sep "" [Raw "quantile("; FloatV param; Raw ")(value)"]) "value"]
                       ++ (if hl then [SimpleCol "any(quant_a.labels)" "labels"] else []))
             (with_ [("quant_a", m)] empty_select))), st1, PQuantileP param dur main')
  | PStepFixP dur main =>
    do (m, st1, main') <- process main c st;
    let p' := PStepFixP dur main' in
    if Z.leb (c_step_ns c) dur then Some (m, st1, p') else
    Some (set_groupby [Id "timestamp_ns"; Id "fingerprint"]
           (set_from (WRef "pre_step_fix" m)
            (set_cols ([Col (bucket_sql "pre_step_fix.timestamp_ns" (c_step_ns c)) "timestamp_ns"; Id "fingerprint";
                        SimpleCol "''" "string"; SimpleCol "argMin(pre_step_fix.value, pre_step_fix.timestamp_ns)" "value"]
                       ++ (if has_column (s_cols m) "labels" then [SimpleCol "any(labels)" "labels"] else []))
             (with_ [("pre_step_fix", m)] empty_select))), st1, p')
  | PMetrics15 f dur =>
    do v <- m15_val_of f dur;
    let fl x := (Z.quot x 15000000000 * 15000000000)%Z in
    Some (set_groupby [Id "fingerprint"; Id "timestamp_ns"]
           (and_where [Ge (Id "samples.timestamp_ns") (IntV (fl (c_from_ns c)));
                       Lt (Id "samples.timestamp_ns") (IntV (fl (c_to_ns c))); get_types c]
            (set_from (SimpleCol (t_m15 c) "samples")
             (set_cols [Col (bucket_sql "samples.timestamp_ns" dur) "timestamp_ns"; SimpleCol "fingerprint" "fingerprint";
                        SimpleCol "''" "string"; Col (m15_val_sql v) "value"] empty_select))), st, p)
  | PLineFormatP tmpl main =>
    do (req, st1, main') <- process main c st;
    (* ProcessTpl: template.New("tpl<ctx.Id()>") draws the id before Parse (also when Parse fails); the parse tree becomes
       the format() call that replaces the `string` column (model/LogqlTemplate.v: tpl_parse, tpl_sql). A template
       outside the transcribed fragment (TUnmodelled) has no model: None here as well, the check asks tpl_parse. *)
    let '(_, st2) := next_id st1 in
    match tpl_parse tmpl with
    | TOk nodes => Some (set_cols (patch_col (s_cols req) "string" (fun _ => tpl_sql nodes)) req, st2, PLineFormatP tmpl main')
    | _ => None
    end
  end.

(* ---------- planner.plan() for a stream-selector (log) script ---------- *)
Definition is_parser (s : stage) := match s with PParser _ _ => true | _ => false end.
Definition is_label_filter (s : stage) := match s with PLabelFilter _ => true | _ => false end.

(* stages that rewrite the labels column *)
Definition is_relabel (s : stage) := match s with PParser _ _ | PDrop _ => true | _ => false end.

(* simpleLabelOperation: label filters before the first parser or drop *)
Fixpoint simple_ops (ppl : list stage) : list bool :=
  match ppl with
  | [] => []
  | s :: r => if is_relabel s then map (fun _ => false) ppl else is_label_filter s :: simple_ops r
  end.
(* labelsJoinIdx: None = -1 *)
Fixpoint labels_join_idx (ppl : list stage) (simple : list bool) (i : nat) : option nat :=
  match ppl, simple with
  | s :: r, b :: bs =>
    match s with
    | PParser _ _ => Some i
    | PLabelFilter _ => if b then labels_join_idx r bs (S i) else Some i
    | PLineFormat _ => Some i
    | PDrop _ => Some i
    | PUnwrap _ => Some i
    | _ => labels_join_idx r bs (S i)
    end
  | _, _ => None
  end.
Definition is_drop (s : stage) := match s with PDrop _ => true | _ => false end.
(* renewMainAfter: the select is closed behind a run of parsers and behind a run of drops, and in front of a relabelling
   stage that follows another kind of stage once the labels are joined *)
Fixpoint renew_after (ppl : list stage) (lji : option nat) (i : nat) : list bool :=
  match ppl with
  | [] => []
  | s :: r => (match r with
               | [] => false
               | n :: _ => match s with
                           | PLineFormat _ => true        (* the stages behind a line_format read the rewritten line: a select of their own *)
                           | _ => if is_parser s then negb (is_parser n)
                                  else if is_drop s then negb (is_drop n)
                                  else is_relabel n && match lji with Some j => Nat.leb j i | None => false end
                           end
               end) :: renew_after r lji (S i)
  end.

Definition plan_ts (ms : list matcher) (ppl : list stage) (simple : list bool) : planner :=
  fold_left (fun fp sb => match fst sb, snd sb with
                          | PLabelFilter f, true => PSimpleLabelFilter f fp
                          | _, _ => fp end) (combine ppl simple) (PStreamSelect ms).

Definition plan_stage (s : stage) (simple : bool) (cur : planner) : option planner :=
  match s with
  | PLineFormat t => Some (PLineFormatP t cur)   (* planLineFormat *)
  | PLabelFilter f => Some (if simple then cur else PLabelFilterP f cur)
  | PLineFilter op v rl => Some (PLineFilterP op v rl cur)
  | PParser fn ps => Some (PParserP fn ps cur)
  | PUnwrap l => Some (PUnwrapP l cur)         (* UseTimeSeriesTable = planner.fastUnwrap, which is never set *)
  | PDrop ps => Some (if simple then cur else PDropP ps cur)
  | PLabelFormat => None                       (* NotSupportedError: no planner is wired for label_format *)
  end.

Fixpoint plan_spl (ppl : list stage) (simple renew : list bool) (i : nat) (lji : option nat) (fp cur : planner) : option planner :=
  match ppl, simple, renew with
  | s :: r, b :: bs, rn :: rns =>
    let cur1 := if match lji with Some j => Nat.eqb i j | None => false end
                then PLabelsJoin (PMainOrderBy ["timestamp_ns"] cur) fp PTimeSeriesInit true else cur in
    match plan_stage s b cur1 with
    | None => None
    | Some cur2 =>
      let cur3 := if rn then PMainRenew cur2 (match lji with Some j => Nat.leb j i | None => false end) else cur2 in
      plan_spl r bs rns (S i) lji fp cur3
    end
  | _, _, _ => Some cur
  end.

Definition plan_log (sel : strsel) (finalize : bool) : option planner :=
  let ppl := sel_pipeline sel in
  let simple := simple_ops ppl in
  let lji := labels_join_idx ppl simple 0 in
  let fp := plan_ts (sel_matchers sel) ppl simple in
  match plan_spl ppl simple (renew_after ppl lji 0) 0 lji fp (PFingerprintFilter fp PMainInit) with
  | None => None
  | Some spl =>
    let p1 := PMainOrderBy ["timestamp_ns"] spl in
    let p2 := if finalize then PMainLimit p1 else p1 in
    let p3 := match lji with None => PLabelsJoin p2 fp PTimeSeriesInit false | Some _ => p2 end in
    Some (PMainFinalizer p3 false finalize)
  end.

(* Plan(script, finalize).Process(ctx) followed by String(): what the reader sends to ClickHouse *)
Definition log_sql (sel : strsel) (finalize : bool) (c : pctx) : option string :=
  match plan_log sel finalize with
  | None => None
  | Some p => match process p c pst0 with
              | None => None
              | Some (q, _, _) => render q (c_cluster c)
              end
  end.

(* ================= planner.plan() for metric scripts (C08) ================= *)
Definition is_some {A} (o : option A) : bool := match o with Some _ => true | None => false end.

Definition last_is_unwrap (ppl : list stage) : bool :=
  match rev ppl with PUnwrap _ :: _ => true | _ => false end.

(* findFirst[LRAOrUnwrap](script) *)
Definition first_lra (s : script) : option lra :=
  match s with
  | SLra l => Some l
  | SAgg a => Some (agg_lra a)
  | STopK t => match tk_arg t with TKLra l => Some l | TKAgg a => Some (agg_lra a) | TKQuantile _ => None end
  | _ => None
  end.

(* AnalyzeMetrics15sShortcut: which pipeline stages let the query run on the 15-second roll-up table:
   label filters (planTS applies them to the fingerprints) and |= "" / |~ "" *)
Definition m15_stage_ok (st : stage) : bool :=
  match st with
  | PLabelFilter _ => true
  | PLineFilter LFContains v _ => String.eqb v ""
  | PLineFilter LFRe v _ => String.eqb v ""
  | _ => false
  end.
Definition analyze_m15 (s : script) : bool :=
  match first_lra s with
  | None => false
  | Some l =>
    (match lra_f l with FRate | FCountOverTime => true | _ => false end)
    && negb (Z.ltb (lra_dur_ns l) 15000000000) && Z.eqb (Z.rem (lra_dur_ns l) 15000000000) 0
    && forallb m15_stage_ok (sel_pipeline (lra_sel l))
  end.

(* getFunctionOrder: the closures appended to matrixFunctionsOrder, and matrixFunctionsLabelsIDX (None = -1) *)
Inductive mfn := MLra (l : lra) | MUnwrapFn (l : lra) | MAgg (a : aggop) | MTopK (t : topk) | MQuantile (q : quantile)
 | MCmp (c : comparison).
Definition fo_cmp (c : option comparison) : list mfn := match c with Some x => [MCmp x] | None => [] end.
Definition fo_lra (l : lra) (acc : list mfn) (lidx : option nat) : list mfn * option nat :=
  if last_is_unwrap (sel_pipeline (lra_sel l)) then
    ((acc ++ [MUnwrapFn l] ++ fo_cmp (lra_cmp l))%list, match lidx with None => Some (List.length acc) | _ => lidx end)
  else ((acc ++ [MLra l] ++ fo_cmp (lra_cmp l))%list, lidx).
Definition fo_agg (a : aggop) (acc : list mfn) (lidx : option nat) : list mfn * option nat :=
  let '(acc1, l1) := fo_lra (agg_lra a) acc lidx in
  let l2 := if is_some (agg_prefix a) || (is_some (agg_suffix a) && negb (is_some l1)) then Some (List.length acc1) else l1 in
  ((acc1 ++ [MAgg a] ++ fo_cmp (agg_cmp a))%list, l2).
Definition fo_quantile (q : quantile) (acc : list mfn) (lidx : option nat) : list mfn * option nat :=
  ((acc ++ [MQuantile q] ++ fo_cmp (q_cmp q))%list, lidx).
Definition function_order (s : script) : list mfn * option nat :=
  match s with
  | SLra l => fo_lra l [] None
  | SAgg a => fo_agg a [] None
  | STopK t =>
    let '(acc, l) := match tk_arg t with
                     | TKLra x => fo_lra x [] None
                     | TKAgg a => fo_agg a [] None
                     | TKQuantile q => fo_quantile q [] None end in
    ((acc ++ [MTopK t] ++ fo_cmp (tk_cmp t))%list, l)
  | SQuantile q => fo_quantile q [] None
  | _ => ([], None)
  end.

(* planByWithout(prefix, suffix): the last non-nil argument wins *)
Definition plan_bw (pre suf : option by_without) (use_ts : bool) (cur : planner) : planner :=
  match (match suf with Some b => Some b | None => pre end) with
  | None => cur
  | Some b => PByWithoutP (bw_labels b) (bw_by b) use_ts cur
  end.
Definition plan_cmp (c : option comparison) (cur : planner) : planner :=
  match c with Some x => PComparisonP (cmp_fn x) (cmp_val x) cur | None => cur end.
Definition plan_topk (t : topk) (cur : planner) : option planner :=
  if Z.ltb (tk_len t) 0 then None else Some (PTopKP (tk_len t) (tk_top t) cur).   (* strconv.Atoi error *)

(* one closure of matrixFunctionsOrder; lji / lidx are read when the closure runs (their final values) *)
Definition apply_mfn (lji_set lidx_set : bool) (f : mfn) (cur : planner) : option planner :=
  match f with
  | MLra l => Some (PLraP (lra_f l) (lra_dur_ns l) lji_set cur)
  | MUnwrapFn l => Some (PUnwrapFnP (lra_f l) (lra_dur_ns l) (plan_bw (lra_prefix l) (lra_suffix l) (negb lji_set) cur))
  | MAgg a => Some (PAggOpP (agg_f a) (lji_set || lidx_set) (plan_bw (agg_prefix a) (agg_suffix a) (negb lji_set) cur))
  | MTopK t => plan_topk t cur
  | MQuantile q => Some (PQuantileP (q_param q) (q_dur_ns q) (plan_bw (q_prefix q) (q_suffix q) (negb lji_set) cur))
  | MCmp c => Some (PComparisonP (cmp_fn c) (cmp_val c) cur)
  end.
Fixpoint apply_mfns (lji_set lidx_set : bool) (fs : list mfn) (cur : planner) : option planner :=
  match fs with
  | [] => Some cur
  | f :: r => match apply_mfn lji_set lidx_set f cur with Some c => apply_mfns lji_set lidx_set r c | None => None end
  end.

(* planMetrics15Shortcut; returns the planner and matrixFunctionsLabelsIDX != -1 *)
Definition m15_lra (fp : planner) (l : lra) : planner :=
  plan_cmp (lra_cmp l) (PFingerprintFilter fp (PMetrics15 (lra_f l) (lra_dur_ns l))).
Definition m15_agg (fp : planner) (a : aggop) : planner * bool :=
  let wl := is_some (agg_prefix a) || is_some (agg_suffix a) in
  (plan_cmp (agg_cmp a) (PAggOpP (agg_f a) wl (plan_bw (agg_prefix a) (agg_suffix a) true (m15_lra fp (agg_lra a)))), wl).
Definition plan_m15 (fp : planner) (s : script) : option (planner * bool) :=
  match s with
  | SLra l => Some (m15_lra fp l, false)
  | SAgg a => Some (m15_agg fp a)
  | STopK t =>
    match (match tk_arg t with
           | TKLra l => Some (m15_lra fp l, false)
           | TKAgg a => Some (m15_agg fp a)
           | TKQuantile _ => None end) with
    | None => None
    | Some (inner, wl) => match plan_topk t inner with Some p => Some (plan_cmp (tk_cmp t) p, wl) | None => None end
    end
  | _ => None
  end.

(* shared.GetDuration *)
Definition get_duration (s : script) : Z :=
  match s with
  | SLra l => lra_dur_ns l
  | SAgg a => lra_dur_ns (agg_lra a)
  | STopK t => match tk_arg t with TKLra l => lra_dur_ns l | TKAgg a => lra_dur_ns (agg_lra a) | TKQuantile q => q_dur_ns q end
  | SQuantile q => q_dur_ns q
  | _ => 0
  end.

Definition plan_metric (s : script) (finalize : bool) : option planner :=
  let sel := stream_selector s in
  let ppl := sel_pipeline sel in
  do (cur, lji_set, lidx_set, fp) <-
    (if analyze_m15 s then
       let fp := plan_ts (sel_matchers sel) ppl (simple_ops ppl) in
       do (p, wl) <- plan_m15 fp s; Some (p, false, wl, fp)
     else
       let simple := simple_ops ppl in
       let lji := labels_join_idx ppl simple 0 in
       let fp := plan_ts (sel_matchers sel) ppl simple in
       do spl <- plan_spl ppl simple (renew_after ppl lji 0) 0 lji fp (PFingerprintFilter fp PMainInit);
       let '(order, lidx) := function_order s in
       do p <- apply_mfns (is_some lji) (is_some lidx) order spl;
       Some (p, is_some lji, is_some lidx, fp));
  let p1 := PStepFixP (get_duration s) cur in
  let p2 := if negb lji_set && negb lidx_set then PLabelsJoin p1 fp PTimeSeriesInit false else p1 in
  Some (PMainFinalizer p2 true finalize).

(* groupByNothing of logql_transpiler_v2/planner.go, applied by the reader's entry point logql_transpiler_v2.Plan to the AST
   before either engine plans it: a vector aggregation written without a by/without clause (at top level or as the argument of
   topk / bottomk) is given the suffix clause `by ()` - it aggregates all its series into ONE series with the empty label set *)
Definition by_nothing : by_without := {| bw_by := true; bw_labels := [] |}.
Definition norm_agg (a : aggop) : aggop :=
  match agg_prefix a, agg_suffix a with
  | None, None => {| agg_f := agg_f a; agg_prefix := None; agg_lra := agg_lra a; agg_suffix := Some by_nothing; agg_cmp := agg_cmp a |}
  | _, _ => a
  end.
Definition norm_script (s : script) : script :=
  match s with
  | SAgg a => SAgg (norm_agg a)
  | STopK t => match tk_arg t with
               | TKAgg a => STopK {| tk_top := tk_top t; tk_len := tk_len t; tk_arg := TKAgg (norm_agg a); tk_cmp := tk_cmp t |}
               | _ => s end
  | _ => s
  end.

(* Plan(script, finalize) for any script *)
Definition plan_script (s : script) (finalize : bool) : option planner :=
  match s with
  | SLog sel => plan_log sel finalize
  | SMacros => None
  | _ => plan_metric s finalize
  end.
