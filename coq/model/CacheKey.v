(* The announcement cache as the process really keeps it (property C04): fpCacheKey hashes
   (day, fingerprint, type) to a uint64 with CH64, numbercache turns that number into the byte key
   of fastcache with the serializer it was constructed with (writer/plugin/qryn_writer_db.go:
   the 8 bytes of the value, little endian). While a request is parsed the cache is only read (Has);
   the rows the request has emitted itself are remembered as triples (parserDoer.announced); ConfirmSeries
   writes the byte keys of the rows after the inserts. SeriesIndex.v keeps the cache as a set of triples
   and threads one set through the parse; this file states what makes that abstraction right: [k_parse]
   is the parser over a cache of byte keys, for an arbitrary key hash [key] and serializer [ser].
   Executable definitions only. *)
From Coq Require Import List ZArith Bool String Ascii.
From Qryn Require Import model.GoQuote model.SeriesIndex.
Import ListNotations.
Open Scope Z_scope.

(* the serializer of GoCache (an unsafe.Slice of 8 bytes over the value): the 8 bytes of a uint64, least significant first *)
Fixpoint le_bytes (n : nat) (k : Z) : string :=
  match n with
  | O => EmptyString
  | S m => String (chr (k mod 256)) (le_bytes m (k / 256))
  end.
Definition ser_le8 (k : Z) : string := le_bytes 8 k.
Fixpoint un_le (s : string) : Z :=
  match s with
  | EmptyString => 0
  | String c r => byte c + 256 * un_le r
  end.

(* Round 7. numbercache.Cache.DB(node) returns the view of ONE configured node on the one fastcache of the process: every key
   is append(c.db, serializer(key)...) with c.db = the NODE name the view was asked for (database_data[i].node, unique per
   entry), not the name of the ClickHouse DATABASE of that entry (database_data[i].name, by default the same for all). *)
Record cnode := { n_node : string; n_db : string }.
Definition node_key (prefix : string) (k : Z) : string := (prefix ++ ser_le8 k)%string.
Definition view_key_code (n : cnode) (k : Z) : string := node_key (n_node n) k.     (* the code *)
Definition view_key_by_db (n : cnode) (k : Z) : string := node_key (n_db n) k.      (* seeded C04-g *)

Section KEYED.
  Variable key : row -> Z.          (* CH64 over day || fingerprint || type: oracle *)
  Variable ser : Z -> string.       (* the serializer handed to numbercache.NewCache *)
  Definition ck (x : row) : string := ser (key x).
  Definition kmem (x : row) (c : list string) : bool := existsb (String.eqb (ck x)) c.
  (* acc = (triples emitted by this request, rows); c = the byte keys in the shared cache, read only *)
  Definition k_announce_type (c : list string) (d fp : Z) (acc : list row * list row) (t : stype) : list row * list row :=
    let '(loc, rows) := acc in
    let x := (d, fp, tcode t) in
    if mem_row x loc || kmem x c then (loc, rows) else (x :: loc, rows ++ [x]).
  Definition k_announce (c : list string) (fp : Z) (tps : list stype) (acc : list row * list row) (d : Z) :=
    fold_left (k_announce_type c d fp) tps acc.
  Definition k_on_entries (c : list string) (acc : list row * list row) (s : stream) :=
    fold_left (k_announce c (s_fp s) (types_of (s_entries s))) (days_of (s_entries s)) acc.
  Definition k_parse (c : list string) (ss : list stream) : list row * list row :=
    fold_left (k_on_entries c) ss ([], []).
  (* ConfirmSeries: CheckAndSet of the key of every row *)
  Definition k_confirm (c : list string) (rows : list row) : list string := map ck rows ++ c.
End KEYED.

(* ------------------------------------------------------------------ correspondence cases: the production serializer *)
Record kcase := { kc_id : Z; kc_k1 : Z; kc_k2 : Z; kc_s1 : string; kc_s2 : string }.
Definition key_mismatch (c : kcase) : bool :=
  negb (String.eqb (ser_le8 (kc_k1 c)) (kc_s1 c) && String.eqb (ser_le8 (kc_k2 c)) (kc_s2 c)).
(* the obligation on the serializer, on the observation: different keys, different byte strings *)
Definition key_violation (c : kcase) : bool := negb (kc_k1 c =? kc_k2 c) && String.eqb (kc_s1 c) (kc_s2 c).
Definition kids (f : kcase -> bool) (cs : list kcase) : list Z := map kc_id (filter f cs).
Definition kreport (cs : list kcase) : list (list Z) := [kids key_mismatch cs; kids key_violation cs].
