(* C12, round 8: fastFill (reader/logql/logql_transpiler_v2/planner_from_fix.go), called by the goroutine FixPeriodPlanner.Process
   starts itself -- a goroutine WITHOUT recover: a panic in it ends the reader process, a loop that does not end blocks the
   request forever.

     func fastFill(v []float64, val float64) {
         v[0] = val
         l := 1
         for ; l < len(v); l *= 2 {
             copy(v[l:], v[:l])
         }
     }

   Until this round model/ReadPath.v (fix_entry) held of it only `v[0]` on an empty slice = fault. Here: the slice is a list, the
   operations that can panic are explicit ([set0] = v[0] = val, [slice_ok] = v[l:]), the loop is a relation WITHOUT fuel
   ([ff_loop v l k o]: started with l on v the loop ends after k rounds in o, None = panic; no derivation = it never ends).
   Abstracted: l is a natural number (Go's int wraps at 2^63: unreachable, a slice has fewer than 2^62 cells -- the planner
   refuses more than 11,000); cells are of any type. *)
From Coq Require Import List Arith Bool.
Import ListNotations.

Section FastFill.
  Context {A : Type}.

  Definition set0 (v : list A) (x : A) : option (list A) := match v with [] => None | _ :: t => Some (x :: t) end.   (* v[0] = val *)
  Definition slice_ok (v : list A) (l : nat) : bool := Nat.leb l (length v).                                          (* v[l:] *)
  (* copy(v[l:], v[:l]): min(len(v)-l, l) cells are copied; the operands overlap only where nothing is written before it is read *)
  Definition copy_up (v : list A) (l : nat) : list A := firstn l v ++ firstn (length v - l) (firstn l v) ++ skipn (l + l) v.

  Inductive ff_loop : list A -> nat -> nat -> option (list A) -> Prop :=
  | FF_done : forall v l, Nat.ltb l (length v) = false -> ff_loop v l 0 (Some v)
  | FF_panic : forall v l, Nat.ltb l (length v) = true -> slice_ok v l = false -> ff_loop v l 0 None
  | FF_round : forall v l k o, Nat.ltb l (length v) = true -> slice_ok v l = true ->
      ff_loop (copy_up v l) (l * 2) k o -> ff_loop v l (S k) o.

  Inductive fast_fill_run (v : list A) (x : A) : nat -> option (list A) -> Prop :=
  | FF_empty : set0 v x = None -> fast_fill_run v x 0 None
  | FF_start : forall v1 k o, set0 v x = Some v1 -> ff_loop v1 1 k o -> fast_fill_run v x k o.

  (* executable (fuel) version, for examples and the variant below *)
  Fixpoint ff_exec (step : nat -> nat) (fuel : nat) (v : list A) (l : nat) : option (option (list A)) :=   (* outer None = fuel ran out *)
    match fuel with
    | O => None
    | S f => if Nat.ltb l (length v) then (if slice_ok v l then ff_exec step f (copy_up v l) (step l) else Some None) else Some (Some v)
    end.
  Definition fast_fill_exec (step : nat -> nat) (fuel : nat) (v : list A) (x : A) : option (option (list A)) :=
    match set0 v x with None => Some None | Some v1 => ff_exec step fuel v1 1 end.
End FastFill.

(* tie, round 8: FixPeriodPlanner.Process run for real over one entry whose range window covers cells [a, a+n) of a series of
   total cells; observed = the cells of the answer that hold the value, counted from a (small numerals). The model: the slice values[a:a+n] (zeros) through
   fastFill with value 1, every cell that then holds 1. *)
Record ffcase := mkFF { ff_id : nat; ff_a : nat; ff_n : nat; ff_observed : list nat }.
Fixpoint ones_at (v : list nat) (i : nat) : list nat :=
  match v with [] => [] | c :: t => if Nat.eqb c 1 then i :: ones_at t (S i) else ones_at t (S i) end.
(* None = the model says the goroutine panics or does not end within n+1 rounds *)
Definition ff_predicted (c : ffcase) : option (list nat) :=
  match fast_fill_exec (fun l => l * 2) (S (ff_n c)) (repeat 0 (ff_n c)) 1 with
  | Some (Some v) => Some (ones_at v 0)
  | _ => None
  end.
Definition list_nat_eqb (a b : list nat) : bool := Nat.eqb (length a) (length b) && forallb (fun p => Nat.eqb (fst p) (snd p)) (combine a b).
Definition ff_mismatches (cs : list ffcase) : list nat :=
  map ff_id (filter (fun c => match ff_predicted c with Some p => negb (list_nat_eqb p (ff_observed c)) | None => true end) cs).
