(* Extraction of the statement oracle of C13 for volume runs (every recorded statement is ~2 KB of
   SQL text plus its tree; strings inside Coq terms are slow to type-check). Same directives as
   ExtractLogql.v: ExtrOcamlBasic + ExtrOcamlString only, no Extract Constant. *)
From Coq Require Import Extraction ExtrOcamlBasic ExtrOcamlString.
From Qryn Require Import lib.Strs model.Sql model.SqlRender model.Scans model.ScanCases.
Extraction "scans.ml" check_stmt empty_select.
