(* Extraction of the C07 failing-input search (model/LogqlSemCheck.v: the ClickHouse-subset evaluator,
   the model planners, the reference semantics and its boolean spec oracle) for volume runs.
   Same directives as ExtractLogql.v: ExtrOcamlBasic + ExtrOcamlString only, no Extract Constant. *)
From Coq Require Import Extraction ExtrOcamlBasic ExtrOcamlString.
From Qryn Require Import lib.Strs model.Sql model.SqlRender model.Logql model.LogqlRegexp model.LogqlPlan model.SqlEval model.LogqlSem model.LogqlSemCheck.
Extraction "c07sem.ml" check_case empty_select re_plan.
