(* Extraction of the segmented renderer over the PromQL-matcher / Pyroscope-selector planner models (property C10, tree-level tie
   of the Prometheus and Pyroscope selection statements).  Directives: ExtrOcamlBasic + ExtrOcamlString only. *)
From Coq Require Import Extraction ExtrOcamlBasic ExtrOcamlString.
From Qryn Require Import lib.Strs model.Sql model.SqlRender model.Logql model.LogqlPlan model.PromSelect model.PromSel model.ProfSel
  model.SqlPieces model.SqlPiecesCases model.SqlPiecesSel model.Scans model.ScansTempo model.SqlPiecesTempo model.ScansPlanners model.SqlPiecesLabels.
Extraction "c10sel.ml" pcase_pieces fcase_pieces tv1_pieces lv_pieces.
