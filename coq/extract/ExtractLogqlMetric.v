(* Extraction for the metric-query correspondence (C08): the planner model plus the specification predicate of
   the 15-second shortcut. Same directives as ExtractLogql.v. *)
From Coq Require Import Extraction ExtrOcamlBasic ExtrOcamlString.
From Qryn Require Import lib.Strs model.Sql model.SqlRender model.Logql model.LogqlPlan model.LogqlCases model.LogqlMetricSem.
Extraction "logqlplan.ml" script_sqls analyze_m15 m15_representable n_label_filters norm_script.
