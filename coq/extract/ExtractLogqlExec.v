(* Extraction for the execution of the metric statements on generated databases (C08, model/LogqlMetricExec.v).
   Same directives as ExtractLogql.v. *)
From Coq Require Import Extraction ExtrOcamlBasic ExtrOcamlString.
From Qryn Require Import lib.Strs model.Sql model.SqlRender model.Logql model.LogqlPlan model.LogqlCases model.LogqlMetricSem
  model.LogqlMetricExec.
Extraction "logqlexec.ml" exec_case impl_case impl_text analyze_m15 norm_script model_wrefs_bound.
