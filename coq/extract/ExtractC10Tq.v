(* Extraction of the segmented TraceQL renderer (property C10, TraceQL tree-level tie): model/TqPieces.v over C11's
   model/TqSql.v, the value-independent check pok, and the marker substitution on trees.
   Directives: ExtrOcamlBasic + ExtrOcamlString only; N, Z, positive, nat stay inductive. *)
From Coq Require Import Extraction ExtrOcamlBasic ExtrOcamlString.
From Qryn Require Import lib.Strs model.Quote model.ChLex model.SqlPieces model.TqSql model.TqPieces model.Traceql model.TraceqlPlan.
(* plan: C11's planner model, run on the hostile requests so that the trees the value-independence theorems speak about are compared
   with the trees the real planners build *)
Extraction "c10tq.ml" tq_stmt_of tq_marker_subst plan.
