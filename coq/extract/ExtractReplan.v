(* C14: extraction of the executable planner model for the re-execution correspondence
   (checks/c14.py). Same directives as ExtractLogql.v; the entry point is script_sqls. *)
From Coq Require Import Extraction ExtrOcamlBasic ExtrOcamlString.
From Qryn Require Import lib.Strs model.Sql model.SqlRender model.Logql model.LogqlPlan model.LogqlCases.
Extraction "replanmodel.ml" script_sqls.
