(* C14: extraction of the executable planner models for the re-execution correspondence
   (checks/c14.py). Same directives as ExtractLogql.v; the entry points are script_sqls (LogQL) and
   prof_case_sqls (the profile planners of model/ReplanProf.v). *)
From Coq Require Import Extraction ExtrOcamlBasic ExtrOcamlString.
From Qryn Require Import lib.Strs model.Sql model.SqlRender model.Logql model.LogqlPlan model.LogqlCases model.ProfSel model.ReplanProf.
Extraction "replanmodel.ml" script_sqls prof_case_sqls.
