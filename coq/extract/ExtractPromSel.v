(* Extraction of the executable Prometheus / Pyroscope selection models (C17 part 2) for volume
   runs of the correspondence: SQL text of the planner models, the Select row loop, the reference
   interpreter applied to the implementation's SQL.  Same directives as ExtractLogql.v. *)
From Coq Require Import Extraction ExtrOcamlBasic ExtrOcamlString.
From Qryn Require Import lib.Strs model.Sql model.SqlRender model.Logql model.LogqlPlan
  model.PromSelect model.PromSel model.ProfSel model.PromSem model.ProfSem model.PromCase model.PromDown model.PromRegex model.PromSelDup.
Extraction "promsel.ml" pcase_sql fcase_sql labels_fetch render scase_mismatch scase_spec_violation scase_dup_violation scase_dup_exact_violation select_series
  querier_mr sem_verdict psem_verdict engine_rows multi_scase eval_prom expected_rows down_verdict re_case_ok re_case_answers.
