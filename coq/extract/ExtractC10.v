(* Extraction of the segmented renderer over the LogQL planner model (property C10, tree-level tie).
   Directives: ExtrOcamlBasic + ExtrOcamlString only; N, Z, positive, nat stay inductive. *)
From Coq Require Import Extraction ExtrOcamlBasic ExtrOcamlString.
From Qryn Require Import lib.Strs model.Sql model.SqlRender model.Logql model.LogqlPlan model.LogqlCases model.SqlPieces model.SqlPiecesCases model.LogqlVariantB.
Extraction "c10pieces.ml" log_pieces script_pieces script_variantb.
