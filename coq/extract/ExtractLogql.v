(* Extraction of the executable LogQL planner model, used for volume runs of the byte-exact
   SQL-text correspondence (strings inside Coq terms cost ~80 us per character to type-check).
   Directives: ExtrOcamlBasic (bool, option, unit, list, prod, sumbool -> OCaml natives) and
   ExtrOcamlString (ascii -> char, string -> char list). N, Z, positive, nat stay the extracted
   inductive types; no Extract Constant. Run coqc in the output directory. *)
From Coq Require Import Extraction ExtrOcamlBasic ExtrOcamlString.
From Qryn Require Import lib.Strs model.Sql model.SqlRender model.Logql model.LogqlPlan model.LogqlCases.
Extraction "logqlplan.ml" log_sqls script_sqls analyze_m15 tpl_probe.
